"""pathsym: path-sensitive symbolic evaluation of loop-free MIR bodies into *decision tables*.

This is static analysis (abstract interpretation with a symbolic-expression domain): every acyclic
CFG path of a small guard function is walked, assignments are evaluated to symbolic expressions
over parameters / fields / uninterpreted call results, branch conditions are collected, and the
returned value is recorded.  No d-engine code runs and no solver is called; comparison against a
specification is done by exhaustive evaluation over the finite set of truth assignments / weak
orderings of the atoms (rules do that, see `check_table`).

Expressions (hashable tuples):
  ('const', text)                    literal (ints as decimal text, 'true'/'false')
  ('param', idx, name)               function parameter
  ('upvar', name)                    captured variable of a closure / coroutine
  ('field', base, name)              field projection  (enum fields: 'Variant.name')
  ('deref'/'ref' are transparent)
  ('call', callee, (args...))        uninterpreted call result
  ('await', expr)                    value of an awaited future
  ('bin', op, a, b) ('un', op, a)    primitive operators
  ('agg', adt, variant, ((field, expr)...))   struct / enum / tuple construction
  ('closure', def_path, ((name, expr)...))
  ('discr', expr)                    enum discriminant
  ('unknown', tag)
"""
from collections import defaultdict

from . import core
from .core import callee_key, callee_decl, is_noise_exp, name_variants


class TooComplex(Exception):
    pass


def _post_dominators(body):
    """immediate post-dominators over normal edges, virtual exit = -1"""
    n = len(body.blocks)
    succ = {i: list(body.succ(i)) for i in range(n)}
    exits = [i for i in range(n) if not succ[i]]
    pred = defaultdict(list)
    for i in range(n):
        for s in succ[i]:
            pred[s].append(i)
    EXIT = -1
    rsucc = defaultdict(list)   # reversed graph successors = preds
    for i in range(n):
        rsucc[i] = pred[i]
    rsucc[EXIT] = exits
    order = []
    seen = {EXIT}
    stack = [(EXIT, iter(rsucc[EXIT]))]
    while stack:
        node, it = stack[-1]
        adv = False
        for s in it:
            if s not in seen:
                seen.add(s)
                stack.append((s, iter(rsucc[s])))
                adv = True
                break
        if not adv:
            order.append(node)
            stack.pop()
    rpo = list(reversed(order))
    num = {b: i for i, b in enumerate(rpo)}
    ipdom = {EXIT: EXIT}
    changed = True
    while changed:
        changed = False
        for b in rpo[1:]:
            new = None
            ps = succ[b] if b != EXIT else []
            if not ps and b != EXIT:
                ps = [EXIT]
            for p in ps:
                if p in ipdom:
                    if new is None:
                        new = p
                    else:
                        a, c = p, new
                        while a != c:
                            while num.get(a, 0) > num.get(c, 0):
                                a = ipdom[a]
                            while num.get(c, 0) > num.get(a, 0):
                                c = ipdom[c]
                        new = a
            if new is not None and ipdom.get(b) != new:
                ipdom[b] = new
                changed = True
    return ipdom


class Path(object):
    __slots__ = ("conds", "ret", "effects", "blocks", "env")

    def __init__(self, conds, ret, effects, blocks, env):
        self.conds = conds      # list of (expr, outcome) ; outcome: True/False for bools, frozenset(variants) for discr, ('val', v) ints
        self.ret = ret          # expr of _0 (None for `!`/diverging)
        self.effects = effects  # list of (callee, args, block)
        self.blocks = blocks
        self.env = env


def strip_refs(e):
    return e


class Evaluator(object):
    def __init__(self, facts, body, max_paths=20000, bind=None, inline_closures=True):
        self.F = facts
        self.body = body
        self.max_paths = max_paths
        self.paths = []
        self.bind = bind or {}     # upvar name -> expr (for inlined closures)
        self.inline_closures = inline_closures
        self.ipdom = None
        self.noise_skip = {}
        self.skipped_noise_regions = 0

    # ------------------------------------------------------------------ expression evaluation
    def place(self, env, pl):
        l = pl["l"]
        pj = pl.get("pj", [])
        base = self.local(env, l)
        cur = base
        variant = None
        for e in pj:
            if e == "*":
                continue
            if isinstance(e, dict):
                if "dc" in e:
                    variant = e["dc"]
                    continue
                if "f" in e:
                    name = e["f"]
                    if "v" in e:
                        name = "%s.%s" % (e["v"], e["f"])
                    cur = self.field(cur, name)
                    continue
                if "up" in e:
                    nm = e["up"]
                    # closure captures print like `self` / `*self` / `self.x`: normalise leading `*`/`&`
                    key = nm.lstrip("*&")
                    if key in self.bind:
                        cur = self.bind[key]
                    else:
                        cur = ("upvar", key)
                    continue
                if "i" in e:
                    cur = self.field(cur, str(e["i"]))
                    continue
                if "ix" in e:
                    cur = ("index", cur, self.local(env, e["ix"]))
                    continue
                if "cix" in e:
                    cur = ("index", cur, ("const", str(e["cix"])))
                    continue
            cur = ("proj", cur, str(e))
        return cur

    def field(self, base, name):
        if base[0] == "agg":
            for (f, v) in base[3]:
                if f == name or name.endswith("." + f) or f == name.split(".")[-1]:
                    return v
        if base[0] == "closure":
            for (f, v) in base[2]:
                if f == name:
                    return v
        return ("field", base, name)

    def local(self, env, l):
        if l in env:
            return env[l]
        b = self.body
        if 1 <= l <= b.argc:
            if b.kind == "Closure" and l == 1:
                return ("closure_env",)
            if l in self.bind:
                return self.bind[l]
            return ("param", l, b.local_name(l))
        return ("unknown", "uninit_%d" % l)

    def operand(self, env, o):
        if "p" in o:
            return self.place(env, o["p"])
        if "fn" in o:
            return ("fnref", o.get("res") or o["fn"])
        if "c" in o:
            return ("const", str(o.get("v", o["c"])))
        return ("unknown", "op")

    def rvalue(self, env, rv):
        k = rv["k"]
        if k in ("use", "repeat"):
            return self.operand(env, rv["a"])
        if k == "cast":
            a = self.operand(env, rv["a"])
            return a if a[0] != "const" else a
        if k in ("ref", "rawptr"):
            return self.place(env, rv["pl"])
        if k == "un":
            a = self.operand(env, rv["a"])
            if rv["op"] == "Not":
                return neg(a)
            return ("un", rv["op"], a)
        if k == "bin":
            a = self.operand(env, rv["a"])
            b = self.operand(env, rv["b"])
            op = rv["op"]
            if op.endswith("WithOverflow"):
                base = op[:-len("WithOverflow")]
                return ("agg", "tuple", "", (("0", fold_bin(base, a, b)), ("1", ("const", "false"))))
            return fold_bin(op, a, b)
        if k == "discr":
            v = self.place(env, rv["pl"])
            if v[0] == "agg":
                for (dv, n) in rv.get("vs", []):
                    if n == v[2]:
                        return ("const", dv)
                return ("unknown", "discr_of_agg")
            return ("discr", v, tuple((x, n) for x, n in rv.get("vs", [])))
        if k == "agg":
            ops = [self.operand(env, o) for o in rv["ops"]]
            if "adt" in rv:
                return ("agg", rv["adt"], rv["v"], tuple(zip(rv["fs"], ops)))
            if "closure" in rv:
                return ("closure", rv["closure"], tuple(zip(rv["fs"], ops)))
            return ("agg", "tuple", "", tuple((str(i), o) for i, o in enumerate(ops)))
        return ("unknown", k)

    # ------------------------------------------------------------------ call models
    def call(self, env, t, bi):
        k = callee_key(t)
        args = [self.operand(env, a) for a in t["args"]]
        if k is None:
            return ("call", "<indirect>", tuple([self.operand(env, t["f"])] + args))
        names = name_variants(k) + (name_variants(callee_decl(t)) if callee_decl(t) else [])

        def is_(suffixes):
            return any(n.endswith(s) for n in names for s in suffixes)
        # transparent wrappers
        if is_(("Clone::clone", "Deref::deref", "DerefMut::deref_mut", "Into::into", "From::from", "AsRef::as_ref", "Borrow::borrow",
                "IntoFuture::into_future", "Pin::new_unchecked", "Pin::new", "Pin::as_mut", "ToOwned::to_owned",
                "Option::as_ref", "Option::as_mut", "Option::cloned", "Option::copied", "Option::as_deref", "Result::as_ref", "Arc::new", "Box::new", "Box::pin",
                "convert::identity")) and args:
            return args[0]
        if is_(("future::get_context",)):
            return ("unknown", "cx")
        if is_(("Future::poll",)) and args:
            return ("agg", "core::task::poll::Poll", "Ready", (("0", ("await", args[0])),))
        if is_(("Try::branch",)) and args:
            a = args[0]
            if a[0] == "agg" and a[2] in ("Ok", "Some"):
                return ("agg", "core::ops::control_flow::ControlFlow", "Continue", (("0", self.field(a, "0")),))
            if a[0] == "agg" and a[2] in ("Err", "None"):
                return ("agg", "core::ops::control_flow::ControlFlow", "Break", (("0", a),))
            return ("try", a)
        if is_(("Option::unwrap", "Option::expect", "Result::unwrap", "Result::expect", "Option::unwrap_unchecked")) and args:
            a = args[0]
            if a[0] == "agg" and a[2] in ("Some", "Ok"):
                return self.field(a, "0")
            return ("unwrap", a)
        if is_(("Option::unwrap_or", "Result::unwrap_or")) and len(args) == 2:
            a = args[0]
            if a[0] == "agg" and a[2] in ("Some", "Ok"):
                return self.field(a, "0")
            if a[0] == "agg" and a[2] in ("None",):
                return args[1]
            return ("unwrap_or", a, args[1])
        if is_(("Option::unwrap_or_default", "Result::unwrap_or_default")) and len(args) == 1:
            # the default of an integer / bool is a constant: same as unwrap_or(0) / unwrap_or(false)
            dty = (self.body.local_ty(t["dest"]["l"]) or "") if isinstance(t.get("dest"), dict) and "l" in t["dest"] else ""
            dflt = ("const", "0") if dty in ("u8", "u16", "u32", "u64", "u128", "usize", "i8", "i16", "i32", "i64", "i128", "isize") else (("const", "false") if dty == "bool" else None)
            if dflt is not None:
                a = args[0]
                if a[0] == "agg" and a[2] in ("Some", "Ok"):
                    return self.field(a, "0")
                if a[0] == "agg" and a[2] in ("None",):
                    return dflt
                return ("unwrap_or", a, dflt)
        if is_(("Option::is_some", "Result::is_ok")) and args:
            a = args[0]
            if a[0] == "agg":
                return ("const", "true" if a[2] in ("Some", "Ok") else "false")
            return ("is", a, "Some" if is_(("Option::is_some",)) else "Ok")
        if is_(("Option::is_none", "Result::is_err")) and args:
            a = args[0]
            if a[0] == "agg":
                return ("const", "true" if a[2] in ("None", "Err") else "false")
            return neg(("is", a, "Some" if is_(("Option::is_none",)) else "Ok"))
        if is_(("cmp::Ord::min", "cmp::min")) and len(args) == 2:
            return ("min", args[0], args[1])
        if is_(("cmp::Ord::max", "cmp::max")) and len(args) == 2:
            return ("max", args[0], args[1])
        if is_(("cmp::Ord::cmp", "Ord::cmp")) and len(args) == 2:
            return ("ordcmp", args[0], args[1])
        if is_(("PartialOrd::partial_cmp",)) and len(args) == 2:
            return ("agg", "core::option::Option", "Some", (("0", ("ordcmp", args[0], args[1])),))
        for nm, op in (("PartialOrd::lt", "Lt"), ("PartialOrd::le", "Le"), ("PartialOrd::gt", "Gt"), ("PartialOrd::ge", "Ge"),
                       ("PartialEq::eq", "Eq"), ("PartialEq::ne", "Ne")):
            if is_((nm,)) and len(args) == 2:
                return fold_bin(op, args[0], args[1])
        for nm in ("saturating_add", "saturating_sub", "saturating_mul", "wrapping_add", "wrapping_sub", "checked_add", "checked_sub", "abs_diff", "pow"):
            if is_(("::" + nm,)) and len(args) == 2 and any("core::num::" in n for n in names):
                return ("arith", nm, args[0], args[1])
        short = names[0]
        return ("call", short, tuple(args))

    # ------------------------------------------------------------------ path enumeration
    def run(self):
        body = self.body
        self.ipdom = _post_dominators(body)
        self._walk(0, {}, [], [], [], {})
        return self.paths

    def run_region(self, start, stops, init_env=None):
        """Evaluate ONE pass through a loop-free region: from block `start` until a block of `stops` is entered (the loop header
        again, or a block outside the loop).  Locals defined before the region are given by init_env (local -> expr); any other
        local that is read before it is written evaluates to ('unknown', ..).  Each path's `ret` is ('stop', block) and `env` is
        the environment on arrival, so a rule can compare a cursor variable's final value with its initial one."""
        self.ipdom = _post_dominators(self.body)
        self.stop_blocks = frozenset(stops)
        try:
            self._walk(start, dict(init_env or {}), [], [], [], {})
        finally:
            self.stop_blocks = frozenset()
        return self.paths

    def _noise_region_ok(self, start, stop):
        """blocks strictly between a noise switch and its post-dominator contain only noise"""
        key = (start, stop)
        if key in self.noise_skip:
            return self.noise_skip[key]
        body = self.body
        seen = set()
        dq = [s for s in body.succ(start)]
        ok = True
        while dq and ok:
            x = dq.pop()
            if x == stop or x in seen:
                continue
            seen.add(x)
            if len(seen) > 400:
                ok = False
                break
            blk = body.blocks[x]
            for st in blk["st"]:
                if "lhs" in st and not is_noise_exp(st.get("exp")):
                    # assignment outside a logging macro inside the region
                    ok = False
                    break
            t = blk["t"]
            if t["k"] in ("call", "switch", "yield") and not is_noise_exp(t.get("exp")):
                ok = False
            if t["k"] == "return":
                ok = False
            dq.extend(body.succ(x))
        self.noise_skip[key] = ok
        return ok

    def _walk(self, bi, env, conds, effects, blocks, visits):
        body = self.body
        while True:
            if len(self.paths) > self.max_paths:
                raise TooComplex("more than %d paths" % self.max_paths)
            if blocks and bi in getattr(self, "stop_blocks", ()):
                self.paths.append(Path(conds, ("stop", bi), effects, blocks + [bi], env))
                return
            v = visits.get(bi, 0)
            if v >= 1:
                raise TooComplex("cycle through bb%d (function is not loop-free)" % bi)
            visits = dict(visits)
            visits[bi] = v + 1
            blocks = blocks + [bi]
            blk = body.blocks[bi]
            for st in blk["st"]:
                if "lhs" not in st:
                    continue
                val = self.rvalue(env, st["rv"])
                env = self._assign(env, st["lhs"], val)
            t = blk["t"]
            k = t["k"]
            if k in ("goto", "drop", "falseedge", "falseunwind", "assert"):
                bi = t["t"]
                continue
            if k == "return":
                self.paths.append(Path(conds, env.get(0, ("unknown", "ret")), effects, blocks, env))
                return
            if k in ("unreachable", "resume", "abort", "codrop"):
                return
            if k == "yield":
                # only reached for hand-written polls; treat as suspension that resumes
                bi = t["t"]
                continue
            if k == "call":
                val = self.call(env, t, bi)
                noise = is_noise_exp(t.get("exp"))
                if not noise:
                    kk = callee_key(t)
                    effects = effects + [(kk or "<indirect>", tuple(self.operand(env, a) for a in t["args"]), bi)]
                env = self._assign(env, t["dest"], val)
                if t["t"] is None:
                    return  # diverging call (panic)
                bi = t["t"]
                continue
            if k == "tailcall":
                return
            if k == "switch":
                if is_noise_exp(t.get("exp")):
                    stop = self.ipdom.get(bi)
                    if stop is not None and stop >= 0 and self._noise_region_ok(bi, stop):
                        self.skipped_noise_regions += 1
                        bi = stop
                        continue
                d = self.operand(env, t["d"])
                outs = self._switch_targets(t, d, conds)
                if is_noise_exp(t.get("exp")) or _is_unknown(d):
                    outs = [(tb, None) for (tb, _c) in outs]
                if len(outs) == 1:
                    (tb, c) = outs[0]
                    if c is not None:
                        conds = conds + [c]
                    bi = tb
                    continue
                for (tb, c) in outs:
                    self._walk(tb, env, conds + ([c] if c is not None else []), effects, blocks, visits)
                return
            raise TooComplex("unsupported terminator %s" % k)

    def _assign(self, env, pl, val):
        env = dict(env)
        pj = [e for e in pl.get("pj", []) if e != "*"]
        if not pj:
            env[pl["l"]] = val
            return env
        # write through a projection: rebuild as a functional update on the base value
        base = self.local(env, pl["l"])
        path = []
        for e in pj:
            if isinstance(e, dict) and "f" in e:
                path.append(e["f"] if "v" not in e else "%s.%s" % (e["v"], e["f"]))
            elif isinstance(e, dict) and "i" in e:
                path.append(str(e["i"]))
            elif isinstance(e, dict) and "dc" in e:
                continue
            else:
                path.append(str(e))
        env[pl["l"]] = ("update", base, tuple(path), val) if base[0] != "agg" or len(path) != 1 else \
            ("agg", base[1], base[2], tuple((f, (val if f == path[0] else v)) for (f, v) in base[3]))
        return env

    def _switch_targets(self, t, d, conds):
        """-> list of (target block, cond or None)"""
        targets = list(t["ts"])
        other = t["else"]
        # constant discriminant
        if d[0] == "const":
            v = d[1]
            if v == "true":
                v = "1"
            if v == "false":
                v = "0"
            for (val, tb) in targets:
                if val == v:
                    return [(tb, None)]
            return [(other, None)]
        if d[0] == "const_variant":
            # discriminant of a known aggregate: need value->variant table: unknown here, handled by ('discr') path
            pass
        if d[0] == "discr":
            names = dict(d[2])
            subj = d[1]
            listed = set(v for v, _ in targets)
            groups = defaultdict(set)
            for (val, tb) in targets:
                groups[tb].add(names.get(val, val))
            rest = set(n for v, n in names.items() if v not in listed)
            if rest:
                groups[other] |= rest
            # known from earlier conditions on the same subject?
            known = None
            for (e, out) in conds:
                if e == ("variant", subj) and isinstance(out, frozenset):
                    known = out if known is None else (known & out)
            res = []
            for tb, vs in groups.items():
                vs2 = frozenset(vs)
                if known is not None:
                    if not (vs2 & known):
                        continue
                    vs2 = vs2 & known
                    if vs2 == known:
                        res.append((tb, None))
                        continue
                res.append((tb, (("variant", subj), vs2)))
            return res
        if t["dty"] == "bool":
            # boolean test
            e, flip = unneg(d)
            known = None
            for (ce, out) in conds:
                if ce == e and isinstance(out, bool):
                    known = out
            f_t = None
            t_t = other
            for (val, tb) in targets:
                if val == "0":
                    f_t = tb
                else:
                    t_t = tb
            res = []
            for (tb, truth) in ((t_t, True), (f_t, False)):
                if tb is None:
                    continue
                actual = (not truth) if flip else truth
                if known is not None:
                    if known == actual:
                        return [(tb, None)]
                    continue
                res.append((tb, (e, actual)))
            return res
        # integer switch
        res = []
        for (val, tb) in targets:
            res.append((tb, (d, ("val", val))))
        res.append((other, (d, ("notin", tuple(v for v, _ in targets)))))
        return res


def neg(e):
    if e[0] == "const":
        return ("const", "false" if e[1] == "true" else "true")
    if e[0] == "not":
        return e[1]
    if e[0] == "bin" and e[1] in core_NEG:
        op, a, b = core_NEG[e[1]], e[2], e[3]
        if op in _CANON:          # keep the canonical orientation (only Lt / Le / Eq / Ne): !(a < b) == (b <= a)
            op, a, b = _CANON[op][0], b, a
        return ("bin", op, a, b)
    return ("not", e)


def unneg(e):
    if e[0] == "not":
        return e[1], True
    return e, False


core_NEG = {"Lt": "Ge", "Le": "Gt", "Gt": "Le", "Ge": "Lt", "Eq": "Ne", "Ne": "Eq"}
_CANON = {"Gt": ("Lt", True), "Ge": ("Le", True)}   # a > b  ==  b < a


def fold_bin(op, a, b):
    if a[0] == "const" and b[0] == "const":
        try:
            x, y = int(a[1]), int(b[1])
            r = {"Lt": x < y, "Le": x <= y, "Gt": x > y, "Ge": x >= y, "Eq": x == y, "Ne": x != y}.get(op)
            if r is not None:
                return ("const", "true" if r else "false")
            r2 = {"Add": x + y, "Sub": x - y, "Mul": x * y}.get(op)
            if r2 is not None:
                return ("const", str(r2))
            if op == "Div" and y != 0:
                return ("const", str(x // y))
            if op == "Rem" and y != 0:
                return ("const", str(x % y))
        except ValueError:
            if op in ("Eq", "Ne"):
                r = (a[1] == b[1]) == (op == "Eq")
                return ("const", "true" if r else "false")
    # canonical orientation of comparisons: only Lt / Le / Eq / Ne, Eq/Ne operands sorted
    if op in _CANON:
        op, _ = _CANON[op]
        a, b = b, a
    if op in ("Eq", "Ne") and repr(b) < repr(a):
        a, b = b, a
    return ("bin", op, a, b)


def decision_table(facts, body, bind=None, max_paths=20000):
    """paths of `body`.  For the coroutine body of an `async fn` the captured arguments are renamed to
    ('param', position, name) of the enclosing fn, so rules can address them by position."""
    if bind is None and body.parent and body.parent in facts.bodies and body.coroutine:
        outer = facts.bodies[body.parent]
        bind = {}
        for i in range(1, outer.argc + 1):
            n = outer.local_name(i)
            if n:
                bind[n] = ("param", i, n)
    ev = Evaluator(facts, body, max_paths=max_paths, bind=bind)
    paths = ev.run()
    return paths, ev


# ---------------------------------------------------------------------------------------------
# rendering / matching helpers for rules
def show(e, depth=0):
    if e is None:
        return "?"
    k = e[0]
    if k == "const":
        return e[1]
    if k == "param":
        return e[2] or ("arg%d" % e[1])
    if k == "upvar":
        return "^" + e[1]
    if k == "field":
        return "%s.%s" % (show(e[1]), e[2])
    if k == "bin":
        return "(%s %s %s)" % (show(e[2]), {"Lt": "<", "Le": "<=", "Eq": "==", "Ne": "!=", "Add": "+", "Sub": "-", "Div": "/", "Mul": "*", "Rem": "%", "BitAnd": "&", "BitOr": "|"}.get(e[1], e[1]), show(e[3]))
    if k == "not":
        return "!" + show(e[1])
    if k == "call":
        return "%s(%s)" % (e[1].split("::")[-1], ", ".join(show(a) for a in e[2]))
    if k == "agg":
        return "%s::%s{%s}" % (e[1].split("::")[-1], e[2], ", ".join("%s:%s" % (f, show(v)) for f, v in e[3]))
    if k == "await":
        return "await(%s)" % show(e[1])
    if k == "variant":
        return "variant(%s)" % show(e[1])
    if k in ("min", "max", "unwrap_or"):
        return "%s(%s, %s)" % (k, show(e[1]), show(e[2]))
    if k == "arith":
        return "%s(%s, %s)" % (e[1], show(e[2]), show(e[3]))
    if k in ("unwrap", "try", "is"):
        return "%s(%s)" % (k, ", ".join(show(x) if isinstance(x, tuple) else str(x) for x in e[1:]))
    if k == "closure":
        return "closure(%s)" % e[1].split("::")[-1]
    if k == "discr":
        return "discr(%s)" % show(e[1])
    return str(e)[:80]


def mentions(e, pred):
    """does expression e contain a sub-expression satisfying pred"""
    if not isinstance(e, tuple) or not e:
        return False
    if pred(e):
        return True
    return any(mentions(x, pred) for x in e if isinstance(x, tuple))


def is_field(name, base_pred=None):
    def p(e):
        return e[0] == "field" and (e[2] == name or e[2].endswith("." + name)) and (base_pred is None or mentions(e[1], base_pred))
    return p


def is_call(suffix):
    def p(e):
        return e[0] == "call" and (e[1].endswith(suffix))
    return p


def is_param(idx=None, name=None):
    def p(e):
        return e[0] == "param" and (idx is None or e[1] == idx) and (name is None or e[2] == name)
    return p


# ---------------------------------------------------------------------------------------------
# Worlds: exhaustive evaluation of a decision table over all weak orderings of its compared
# quantities and all truth values / variants of its opaque atoms.
CMP_OPS = ("Lt", "Le", "Eq", "Ne")
ARITH = ("Add", "Sub", "Mul", "Div", "Rem")


def _is_unknown(e):
    return mentions(e, lambda x: x[0] == "unknown" or x[0] == "closure_env")


class World(object):
    def __init__(self, q, b, v):
        self.q = q
        self.b = b
        self.v = v

    def int(self, e):
        k = e[0]
        if k == "const":
            if e[1] == "true":
                return 1
            if e[1] == "false":
                return 0
            return int(e[1])
        if e in self.q:
            return self.q[e]
        if k == "bin" and e[1] in ARITH:
            a, b = self.int(e[2]), self.int(e[3])
            if e[1] == "Add":
                return a + b
            if e[1] == "Sub":
                return a - b
            if e[1] == "Mul":
                return a * b
            if e[1] == "Div":
                return a // b if b else 0
            if e[1] == "Rem":
                return a % b if b else 0
        if k == "min":
            return min(self.int(e[1]), self.int(e[2]))
        if k == "max":
            return max(self.int(e[1]), self.int(e[2]))
        if k == "arith":
            a, b = self.int(e[2]), self.int(e[3])
            if e[1] == "saturating_add":
                return a + b
            if e[1] == "saturating_sub":
                return max(0, a - b)
            if e[1] == "abs_diff":
                return abs(a - b)
        raise KeyError(e)

    def truth(self, e):
        k = e[0]
        if k == "const":
            return e[1] == "true" or e[1] == "1"
        if k == "not":
            return not self.truth(e[1])
        if k == "bin" and e[1] in CMP_OPS:
            a, b = self.int(e[2]), self.int(e[3])
            return {"Lt": a < b, "Le": a <= b, "Eq": a == b, "Ne": a != b}[e[1]]
        if k == "bin" and e[1] in ("BitAnd", "BitOr", "BitXor"):
            a, b = self.truth(e[2]), self.truth(e[3])
            return {"BitAnd": a and b, "BitOr": a or b, "BitXor": a != b}[e[1]]
        if k == "is":
            if e[1] in self.v:
                return self.v[e[1]] == e[2]
        if e in self.b:
            return self.b[e]
        raise KeyError(e)

    def holds(self, cond):
        e, out = cond
        if e[0] == "variant" and e[1][0] == "ordcmp":
            a, b = self.int(e[1][1]), self.int(e[1][2])
            return ("Less" if a < b else ("Equal" if a == b else "Greater")) in out
        if e[0] == "variant":
            return self.v[e[1]] in out
        if isinstance(out, bool):
            return self.truth(e) == out
        if isinstance(out, tuple) and out[0] == "val":
            return str(self.int(e)) == out[1]
        if isinstance(out, tuple) and out[0] == "notin":
            return str(self.int(e)) not in out[1]
        raise KeyError(cond)

    def describe(self, names=None):
        d = {}
        for e, v in self.q.items():
            d[show(e)] = v
        for e, v in self.b.items():
            d[show(e)] = v
        for e, v in self.v.items():
            d["variant(%s)" % show(e)] = v
        return d


class Table(object):
    """decision table + world enumeration"""

    def __init__(self, paths, extra_exprs=(), variant_universe=None, max_worlds=300000):
        self.paths = [p for p in paths]
        self.max_worlds = max_worlds
        self.quant = []      # quantity exprs (ints)
        self.bools = []      # opaque boolean atoms
        self.vars = {}       # subject -> set(variants)
        self.consts = set()
        self.pairs = []      # compared pairs (for components)
        self.unknown_conds = 0
        vu = variant_universe or {}
        for p in self.paths:
            for (e, out) in p.conds:
                if _is_unknown(e):
                    self.unknown_conds += 1
                    continue
                self._scan_cond(e, out, vu)
        for e in extra_exprs:
            self._scan_bool(e, vu)
        # `is(x, V)` over a subject that also has variant conds is evaluated through the variant
        self.bools = [b for b in self.bools if not (b[0] == "is" and b[1] in self.vars)]

    def _scan_cond(self, e, out, vu):
        if e[0] == "variant" and e[1][0] == "ordcmp":
            self._scan_int(e[1][1])
            self._scan_int(e[1][2])
            self.pairs.append((e[1][1], e[1][2]))
            return
        if e[0] == "variant":
            s = self.vars.setdefault(e[1], set())
            s |= set(out)
            if e[1] in vu:
                s |= set(vu[e[1]])
            return
        if isinstance(out, bool):
            self._scan_bool(e, vu)
        else:
            self._scan_int(e)

    def _scan_bool(self, e, vu):
        k = e[0]
        if k == "const":
            return
        if k == "not":
            return self._scan_bool(e[1], vu)
        if k == "bin" and e[1] in CMP_OPS:
            self._scan_int(e[2])
            self._scan_int(e[3])
            self.pairs.append((e[2], e[3]))
            return
        if k == "bin" and e[1] in ("BitAnd", "BitOr", "BitXor"):
            self._scan_bool(e[2], vu)
            self._scan_bool(e[3], vu)
            return
        if k == "is" and e[1] in vu:
            self.vars.setdefault(e[1], set()).update(vu[e[1]])
            return
        if e not in self.bools:
            self.bools.append(e)

    def _scan_int(self, e):
        k = e[0]
        if k == "const":
            try:
                self.consts.add(int(e[1]))
            except ValueError:
                pass
            return
        if (k == "bin" and e[1] in ARITH) or k in ("min", "max"):
            xs = e[2:] if k == "bin" else e[1:]
            for x in xs:
                self._scan_int(x)
            self.pairs.append(tuple(xs))
            return
        if k == "arith":
            self._scan_int(e[2])
            self._scan_int(e[3])
            self.pairs.append((e[2], e[3]))
            return
        if e not in self.quant:
            self.quant.append(e)

    def _components(self):
        parent = {q: q for q in self.quant}

        def find(x):
            while parent[x] != x:
                parent[x] = parent[parent[x]]
                x = parent[x]
            return x

        def leaves(e, acc):
            if e in parent:
                acc.append(e)
            elif isinstance(e, tuple) and e[0] in ("bin", "min", "max", "arith"):
                for x in e[1:]:
                    if isinstance(x, tuple):
                        leaves(x, acc)
            return acc
        for pr in self.pairs:
            ls = []
            for x in pr:
                leaves(x, ls)
            for a in ls[1:]:
                ra, rb = find(ls[0]), find(a)
                if ra != rb:
                    parent[ra] = rb
        comps = defaultdict(list)
        for q in self.quant:
            comps[find(q)].append(q)
        return list(comps.values())

    def worlds(self):
        import itertools
        comps = self._components()
        comp_assignments = []
        total = 1
        for comp in comps:
            dom = set(range(0, len(comp) + 1))
            for c in self.consts:
                if -2 <= c <= 64:
                    dom |= {c, c + 1, max(0, c - 1)}
            dom = sorted(dom)
            if len(dom) ** len(comp) > 60000:
                dom = sorted(set(range(0, len(comp) + 1)) | set(c for c in self.consts if 0 <= c <= 4))
            assigns = [dict(zip(comp, vals)) for vals in itertools.product(dom, repeat=len(comp))]
            comp_assignments.append(assigns)
            total *= len(assigns)
        bool_assigns = [dict(zip(self.bools, vals)) for vals in itertools.product((False, True), repeat=len(self.bools))]
        subjects = list(self.vars)
        var_assigns = [dict(zip(subjects, vals)) for vals in itertools.product(*[sorted(self.vars[s]) for s in subjects])]
        total *= len(bool_assigns) * len(var_assigns)
        if total > self.max_worlds:
            raise TooComplex("%d worlds" % total)
        for qa in itertools.product(*comp_assignments) if comp_assignments else [()]:
            q = {}
            for d in qa:
                q.update(d)
            for b in bool_assigns:
                for v in var_assigns:
                    yield World(q, b, v)

    def select(self, world):
        out = []
        for p in self.paths:
            ok = True
            for c in p.conds:
                if _is_unknown(c[0]):
                    continue
                if not world.holds(c):
                    ok = False
                    break
            if ok:
                out.append(p)
        return out


def check_table(paths, outcome_of, spec, extra_exprs=(), variant_universe=None, max_report=3):
    """Exhaustively compare a decision table with a specification.
      outcome_of(path, world) -> hashable outcome of the implementation on that path
      spec(world)             -> expected outcome, or None for 'don't care'
    Returns (n_worlds, mismatches[list of (world description, got, expected)], table)"""
    tb = Table(paths, extra_exprs=extra_exprs, variant_universe=variant_universe)
    n = 0
    bad = []
    for w in tb.worlds():
        n += 1
        sel = tb.select(w)
        got = set()
        for p in sel:
            got.add(outcome_of(p, w))
        exp = spec(w)
        if exp is None:
            continue
        if not sel:
            if len(bad) < max_report:
                bad.append((w.describe(), "no path", exp))
            continue
        if got != {exp}:
            if len(bad) < max_report:
                bad.append((w.describe(), sorted(map(str, got)), exp))
            else:
                bad.append(None)
    nbad = len(bad)
    bad = [b for b in bad if b is not None]
    return n, nbad, bad, tb


def agg_get(e, *path):
    """navigate aggregates: agg_get(ret, 'Ok.0'|'0', 'field')"""
    cur = e
    for name in path:
        if cur is None:
            return None
        if cur[0] == "agg":
            nxt = None
            for (f, v) in cur[3]:
                if f == name:
                    nxt = v
            cur = nxt
        else:
            return None
    return cur


def variant_of(e):
    if e is not None and e[0] == "agg":
        return e[2]
    return None
