#!/usr/bin/env python3
"""Evaluate kept seeded mutants (/verif/seeded/<id>/patch.diff) against ALL property checks:
apply to a scratch copy, re-extract, run every check, report which (rule, site) newly fail.
usage: seedeval.py [--patch file --name id] [ids...]   -> writes /verif/seeded/<id>/result.json"""
import glob, json, os, shutil, subprocess, sys, tempfile, time
V = os.path.dirname(os.path.dirname(os.path.abspath(__file__)))
sys.path.insert(0, os.path.join(V, "engine"))
import selftest


def all_props():
    return sorted(os.path.basename(p)[:-3].upper() for p in glob.glob(os.path.join(V, "engine", "raftlint", "rules", "c[0-9][0-9].py")))


def evaluate(patch, scratch, evdir, base, props):
    ok, out = selftest.apply_patch(scratch, patch)
    if not ok:
        return {"result": "PATCH-DOES-NOT-APPLY", "detail": out[-300:]}
    res = {"new_failing": {}, "resolved": {}}
    try:
        allr = selftest.run_checks(props, scratch, evdir)
        for p in props:
            failing, fatal = allr[p]
            if fatal and "does not compile" in fatal:
                return {"result": "DOES-NOT-COMPILE", "detail": fatal[-500:]}
            if fatal:
                res.setdefault("errors", {})[p] = fatal[-300:]
            new = sorted(failing - base[p])
            if new:
                res["new_failing"][p] = ["%s : %s" % x for x in new]
            gone = sorted(base[p] - failing)
            if gone:
                res["resolved"][p] = ["%s : %s" % x for x in gone]
        res["result"] = "CAUGHT" if res["new_failing"] else "MISSED"
    finally:
        selftest.apply_patch(scratch, patch, reverse=True)
    return res


def main(argv):
    items = []
    i = 1
    extra = None
    name = None
    ids = []
    while i < len(argv):
        if argv[i] == "--patch":
            extra = argv[i + 1]; i += 2
        elif argv[i] == "--name":
            name = argv[i + 1]; i += 2
        elif argv[i] == "--dir":
            for pf in sorted(glob.glob(os.path.join(argv[i + 1], "*.diff"))):
                items.append((os.path.basename(pf), pf, None))
            i += 2
        else:
            ids.append(argv[i]); i += 1
    if extra:
        items.append((name or os.path.basename(extra), extra, None))
    elif items:
        pass
    else:
        for d in sorted(glob.glob(os.path.join(V, "seeded", "*"))):
            if ids and os.path.basename(d) not in ids:
                continue
            pf = os.path.join(d, "patch.diff")
            if os.path.exists(pf):
                items.append((os.path.basename(d), pf, d))
    root = tempfile.mkdtemp(prefix="raftlint-seedeval-", dir="/var/tmp")
    scratch = os.path.join(root, "repo"); evdir = os.path.join(root, "ev"); os.makedirs(evdir)
    props = all_props()
    try:
        subprocess.check_call(["rsync", "-a", "--exclude", "target", "--exclude", ".git", "/repo/", scratch + "/"])
        base = {}
        allb = selftest.run_checks(props, scratch, evdir)
        for p in props:
            base[p] = allb[p][0]
        for (nm, pf, d) in items:
            t0 = time.time()
            r = evaluate(pf, scratch, evdir, base, props)
            r["wall_s"] = round(time.time() - t0, 1)
            print(nm, r["result"], json.dumps(r.get("new_failing", {}))[:600])
            if d:
                json.dump(r, open(os.path.join(d, "result.json"), "w"), indent=1)
    finally:
        shutil.rmtree(root, ignore_errors=True)


if __name__ == "__main__":
    main(sys.argv)
