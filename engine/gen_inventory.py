#!/usr/bin/env python3
"""Regenerates the machine-written parts of DESIGN.md (between <!-- BEGIN:x --> / <!-- END:x --> markers):
  inventory : per property, the rules as built with instance counts and today's verdict (from /verif/evidence/*.json)
  findings  : the known-findings table (from /verif/known_findings.json)
  selftests : which self-test / seeded patches exist and which rule each must trigger
Run after `for p in ...; ./check $p` so that the evidence is current."""
import glob
import json
import os
import re
import sys
from collections import OrderedDict, defaultdict

V = os.path.dirname(os.path.dirname(os.path.abspath(__file__)))


def inventory():
    out = ["| property | rule | instances | hold | known findings | first line of the module's claim |", "|---|---|---|---|---|---|"]
    for f in sorted(glob.glob(os.path.join(V, "evidence", "C??.json"))):
        e = json.load(open(f))
        pid = e["property_id"]
        per = OrderedDict()
        for s in e["coverage"]["samples"]:
            r = per.setdefault(s["rule"], [0, 0, 0, 0])
            r[0] += 1
            if s["verdict"] == "holds":
                r[1] += 1
            elif s["verdict"] == "known-finding":
                r[2] += 1
            else:
                r[3] += 1
        claim = (e["coverage"].get("explanation") or "").strip().split("\n")[0][:110]
        first = True
        for rule, (n, h, k, v) in per.items():
            out.append("| %s | %s | %d | %d | %s | %s |" % (pid if first else "", rule, n, h, (str(k) if k else "") + (" +%d UNLISTED" % v if v else ""), claim if first else ""))
            first = False
    return "\n".join(out)


def findings():
    d = json.load(open(os.path.join(V, "known_findings.json")))
    by = OrderedDict()
    for f in d["findings"]:
        by.setdefault((f["id"], f["property"]), []).append(f)
    out = ["| id | property | rule : site key(s) | what fails | failing history | evidence |", "|---|---|---|---|---|---|"]
    for (fid, prop), fs in by.items():
        keys = "<br>".join("`%s` : `%s`" % (x["rule"], x["key"]) for x in fs[:4]) + ("<br>... (%d keys)" % len(fs) if len(fs) > 4 else "")
        out.append("| %s | %s | %s | %s | %s | %s |" % (fid, prop, keys, fs[0]["what"].replace("|", "/"), fs[0]["history"].replace("|", "/"), fs[0].get("evidence", "")))
    for f in d.get("fixed", []):
        out.append("| %s | %s | fixed: %s | %s | %s | %s |" % (f.get("id", ""), f.get("property", ""), f.get("commit", ""), f.get("what", ""), f.get("history", ""), f.get("evidence", "")))
    return "\n".join(out)


def selftests():
    out = ["| property | patch | kind | rule(s) that must react | what the edit does |", "|---|---|---|---|---|"]
    for d in sorted(glob.glob(os.path.join(V, "selftest", "C*"))):
        for p in sorted(glob.glob(os.path.join(d, "*.patch"))):
            bn = os.path.basename(p)
            kind = "keep" if bn.startswith("keep") else ("repair" if bn.startswith("repair") else "break")
            lines = open(p).read().split("\n")
            exp = ""
            desc = ""
            for ln in lines[:4]:
                if ln.startswith("# expect:"):
                    exp = ln.split(":", 1)[1].strip()
                elif ln.startswith("#") and not desc:
                    desc = ln.lstrip("# ").strip()[:140]
            out.append("| %s | %s | %s | %s | %s |" % (os.path.basename(d), bn[:-6], kind, exp if kind != "keep" else "(none may fire)", desc.replace("|", "/")))
    res = os.path.join(V, "selftest", "RESULTS.json")
    return "\n".join(out)


def seeded():
    out = ["| id | property | what the change breaks | needs to manifest | caught by (rule : site) | history of detection |", "|---|---|---|---|---|---|"]
    for d in sorted(glob.glob(os.path.join(V, "seeded", "*"))):
        m = os.path.join(d, "meta.json")
        if not os.path.exists(m):
            continue
        j = json.load(open(m))
        out.append("| %s | %s | %s | %s | %s | %s |" % (os.path.basename(d), j.get("property"), str(j.get("what_breaks", ""))[:200].replace("|", "/"), str(j.get("needs_to_manifest", ""))[:160].replace("|", "/"),
                                             "<br>".join(j.get("caught_by", [])) or j.get("verdict", ""), str(j.get("history_of_detection", "")).replace("|", "/")))
    return "\n".join(out)


def asbuilt(pid):
    ev = os.path.join(V, "evidence", "%s.json" % pid)
    mod = os.path.join(V, "engine", "raftlint", "rules", "%s.py" % pid.lower())
    if not os.path.exists(ev) or not os.path.exists(mod):
        return "*[as built]* not claimed (see section 5)."
    e = json.load(open(ev))
    doc = (e["coverage"].get("explanation") or "").strip().replace("\n", " ")
    per = OrderedDict()
    for s_ in e["coverage"]["samples"]:
        r = per.setdefault(s_["rule"], {"n": 0, "hold": 0, "sites": []})
        r["n"] += 1
        if s_["verdict"] == "holds":
            r["hold"] += 1
        else:
            r["sites"].append("%s (%s)" % (s_["site"], s_["verdict"]))
    kf = json.load(open(os.path.join(V, "known_findings.json")))
    ids = sorted(set(f["id"] for f in kf["findings"] if f["property"] == pid))
    fixed = sorted(set("%s@%s" % (f["id"], f["commit"]) for f in kf.get("fixed", []) if f["property"] == pid))
    lines = ["> **As built (`rules/%s.py`).** %s" % (pid.lower(), doc), ">"]
    lines.append("> Rules and instances on the current tree: " + "; ".join("%s %d/%d" % (r, v["hold"], v["n"]) for r, v in per.items()) + ".")
    if ids:
        lines.append("> Open findings: %s (%s)." % (", ".join(ids), "; ".join(x for v in per.values() for x in v["sites"])[:600]))
    if fixed:
        lines.append("> Fixed in /repo: %s." % ", ".join(fixed))
    pts = sorted(glob.glob(os.path.join(V, "selftest", pid, "*.patch")))
    if pts:
        lines.append("> Self-tests: %d patches (%s)." % (len(pts), ", ".join(os.path.basename(x)[:-6] for x in pts)[:700]))
    return "\n".join(lines)


def main():
    p = os.path.join(V, "DESIGN.md")
    s = open(p).read()
    for pid in re.findall(r"<!-- BEGIN:asbuilt-(C\d\d) -->", s):
        b, e = "<!-- BEGIN:asbuilt-%s -->" % pid, "<!-- END:asbuilt-%s -->" % pid
        s = s[:s.index(b) + len(b)] + "\n" + asbuilt(pid) + "\n" + s[s.index(e):]
    for name, fn in (("inventory", inventory), ("findings", findings), ("selftests", selftests), ("seeded", seeded)):
        b, e = "<!-- BEGIN:%s -->" % name, "<!-- END:%s -->" % name
        if b in s and e in s:
            s = s[:s.index(b) + len(b)] + "\n" + fn() + "\n" + s[s.index(e):]
    open(p, "w").write(s)


if __name__ == "__main__":
    main()
