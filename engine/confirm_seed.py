#!/usr/bin/env python3
"""Confirm a seeded mutant in a scratch worktree (outside /repo and /verif):
 demo fails with the change, passes without it; the existing suite still passes with the change.
usage: confirm_seed.py <id> <src dir with patch.diff/demo.diff/meta.json> <worktree> <target dir>
writes /verif/seeded/<id>/{patch.diff,demo.diff,meta.json,README.md,confirm.json}"""
import json, os, re, shutil, subprocess, sys
sid, src, wt, tg = sys.argv[1:5]
env = dict(os.environ, CARGO_NET_OFFLINE="true", CARGO_TARGET_DIR=tg)
def sh(cmd, timeout=5400):
    r = subprocess.run(cmd, shell=True, cwd=wt, env=env, stdout=subprocess.PIPE, stderr=subprocess.STDOUT, text=True, timeout=timeout)
    return r.returncode, r.stdout
head = sys.argv[5] if len(sys.argv) > 5 else subprocess.check_output(["git", "-C", "/repo", "rev-parse", "HEAD"], text=True).strip()
sh("git reset -q --hard ; git clean -fdq ; git checkout -q --detach %s ; git reset -q --hard ; git clean -fdq" % head)
meta = json.load(open(os.path.join(src, "meta.json")))
res = {"id": sid, "repo_head": head}
rc, out = sh("git apply --3way %s/patch.diff 2>&1 || git apply %s/patch.diff" % (src, src))
res["patch_applies"] = rc == 0
rc, out = sh("git apply %s/demo.diff" % src)
res["demo_applies"] = rc == 0
demo = meta["demo_cmd"]
demo = re.sub(r"cd\s+\S+\s*&&\s*", "", demo)
demo = re.sub(r"CARGO_NET_OFFLINE=\S+\s*", "", demo)
demo = re.sub(r"CARGO_TARGET_DIR=\S+\s*", "", demo)
demo = demo.split("#")[0].split("   (")[0].split(" (equivalently")[0].strip()
res["demo_cmd"] = demo
rc1, out1 = sh(demo)
res["demo_with_change_rc"] = rc1
res["demo_with_change_tail"] = out1[-1500:]
# suite with the change (demo test excluded by name is not possible generically: the demo is expected to be the only extra failure)
DEMO_ONLY = os.environ.get("DEMO_ONLY") == "1"
prev = {}
if DEMO_ONLY and os.path.exists(os.path.join("/verif/seeded", sid, "confirm.json")):
    prev = json.load(open(os.path.join("/verif/seeded", sid, "confirm.json")))
rcs, outs = (0, prev.get("suite_with_change", "")) if DEMO_ONLY else sh("cargo nextest run --workspace --no-fail-fast --offline --test-threads 8 2>&1 | grep -E 'FAIL|Summary' | sort -u")
res["suite_with_change"] = outs[-3000:]
# re-run every failing test alone (load-induced timing failures pass then)
names = [] if DEMO_ONLY else sorted(set(re.findall(r"FAIL \[[^\]]*\] \(\s*\d+/\d+\) \S+ (\S+)", outs)))
still = []
for nm in names:
    short = nm.split("::")[-1]
    rcx, outx = sh("cargo nextest run --workspace --offline --test-threads 1 --retries 2 -E 'test(%s)' 2>&1 | grep -E 'Summary'" % short)
    if rcx != 0 or "failed" in outx:
        still.append(nm)
res["suite_failures_after_serial_rerun"] = prev.get("suite_failures_after_serial_rerun") if DEMO_ONLY else still
sh("git apply -R %s/patch.diff" % src)
rc2, out2 = sh(demo)
res["demo_without_change_rc"] = rc2
res["demo_without_change_tail"] = out2[-800:]
res["confirmed_demo"] = (rc1 != 0 and rc2 == 0)
dst = os.path.join("/verif/seeded", sid)
os.makedirs(dst, exist_ok=True)
for f in ("patch.diff", "demo.diff", "meta.json", "README.md"):
    if os.path.exists(os.path.join(src, f)):
        shutil.copy(os.path.join(src, f), os.path.join(dst, f))
json.dump(res, open(os.path.join(dst, "confirm.json"), "w"), indent=1)
print(sid, "demo with change rc=%s, without rc=%s" % (rc1, rc2))
print(outs[-1500:])
