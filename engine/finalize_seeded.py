#!/usr/bin/env python3
"""Merge my own confirmation (confirm.json) and the checker evaluation (result.json) into seeded/<id>/meta.json"""
import glob, json, os
V = os.path.dirname(os.path.dirname(os.path.abspath(__file__)))
for d in sorted(glob.glob(os.path.join(V, "seeded", "*"))):
    mp = os.path.join(d, "meta.json")
    if not os.path.exists(mp):
        continue
    m = json.load(open(mp))
    cp = os.path.join(d, "confirm.json")
    if os.path.exists(cp):
        c = json.load(open(cp))
        m["confirmed"] = {"base_commit": c.get("repo_head"), "demo_cmd": c.get("demo_cmd"), "demo_fails_with_change": c.get("demo_with_change_rc") not in (0, None),
                          "demo_passes_without_change": c.get("demo_without_change_rc") == 0,
                          "suite_failures_after_serial_rerun_with_change": c.get("suite_failures_after_serial_rerun"),
                          "ran": "engine/confirm_seed.py in a scratch worktree (git apply patch.diff + demo.diff; demo; full nextest suite; failing tests re-run alone; patch reverted; demo)"}
    rp = os.path.join(d, "result.json")
    if os.path.exists(rp):
        r = json.load(open(rp))
        m["verdict"] = r.get("result")
        m["caught_by"] = ["%s %s" % (p, x) for p, xs in sorted(r.get("new_failing", {}).items()) for x in xs]
        m["check_properties"] = sorted(r.get("new_failing", {}).keys())
    m.setdefault("expect_rules", [])
    json.dump(m, open(mp, "w"), indent=1)
    print(os.path.basename(d), m.get("verdict"), m.get("caught_by"))
