#!/usr/bin/env python3
"""Checker self-tests: apply each /verif/selftest/<Cxx>/{break,keep}-*.patch to a scratch copy of /repo
(outside /repo and /verif), re-extract facts from the scratch tree (cargo check only, nothing runs) and compare the
rule verdicts with the baseline of the unchanged tree.
  break-*.patch : first line `# expect: <rule-id>[,<rule-id>...]`; at least one NEW failing instance of each listed rule must appear.
  keep-*.patch  : behaviour-preserving edit; NO new failing instance may appear.
  repair-*.patch: repairs a finding of today's tree; `# expect: <rule>`: the baseline failure(s) of that rule must disappear and nothing new may fail.
Also used for /verif/seeded/<id>/patch.diff (expectation from meta.json "expect_rules", may be empty = 'any new violation of the property').
usage: selftest.py [--json out.json] [--shard k/n] [Cxx ...]   (default: every property with patches)"""
import glob
import json
import os
import shutil
import subprocess
import sys
import tempfile
import time

V = os.path.dirname(os.path.dirname(os.path.abspath(__file__)))
REPO = "/repo"


def run_checks(props, repo, evdir):
    """run several property checks in ONE process (facts loaded once); -> {prop: (failing, fatal)}"""
    env = dict(os.environ)
    env["RAFTLINT_REPO"] = repo
    env["RAFTLINT_EVIDENCE_DIR"] = evdir
    for p in props:
        for f in (os.path.join(evdir, "%s.json" % p),):
            if os.path.exists(f):
                os.remove(f)
    r = subprocess.run([os.path.join(V, "check"), ",".join(props) + ",", "--tier", "quick"], cwd=V, env=env, stdout=subprocess.PIPE, stderr=subprocess.STDOUT, text=True)
    out = {}
    for p in props:
        ev = os.path.join(evdir, "%s.json" % p)
        failing = set()
        fatal = None
        if os.path.exists(ev):
            j = json.load(open(ev))
            for s in j["coverage"]["samples"]:
                if s["verdict"] != "holds":
                    failing.add((s["rule"], s["site"]))
            if j.get("violations") and any(x.get("rule") == "driver" for x in j["coverage"]["samples"]):
                fatal = r.stdout[-2000:]
        else:
            fatal = r.stdout[-2000:]
        if "does not compile" in r.stdout:
            fatal = r.stdout[-2000:]
        out[p] = (failing, fatal)
    return out


def run_check(prop, repo, evdir):
    env = dict(os.environ)
    env["RAFTLINT_REPO"] = repo
    env["RAFTLINT_EVIDENCE_DIR"] = evdir
    r = subprocess.run([os.path.join(V, "check"), prop, "--tier", "quick"], cwd=V, env=env, stdout=subprocess.PIPE, stderr=subprocess.STDOUT, text=True)
    ev = os.path.join(evdir, "%s.json" % prop)
    failing = set()
    fatal = None
    if os.path.exists(ev):
        j = json.load(open(ev))
        for s in j["coverage"]["samples"]:
            if s["verdict"] != "holds":
                failing.add((s["rule"], s["site"]))
    else:
        fatal = r.stdout[-2000:]
    if "rule=driver site=fatal" in r.stdout:
        fatal = r.stdout[-2000:]
    return failing, fatal, r.stdout


def apply_patch(scratch, patch, reverse=False):
    args = ["patch", "-p1", "--no-backup-if-mismatch", "-s", "-f"]
    if reverse:
        args.append("-R")
    r = subprocess.run(args + ["-i", patch], cwd=scratch, stdout=subprocess.PIPE, stderr=subprocess.STDOUT, text=True)
    return r.returncode == 0, r.stdout


def expectations(patch):
    exp = []
    with open(patch) as fh:
        for line in fh:
            if line.startswith("# expect:"):
                exp = [x.strip() for x in line.split(":", 1)[1].split(",") if x.strip()]
            if not line.startswith("#"):
                break
    return exp


def allowed_new(patch):
    """`# allow-new: <rule>,..`: rules whose failing instances may be RE-KEYED by a keep patch (a listed finding whose
    site moved into an extracted helper keeps failing under a new key; that is the same defect, not a false alarm)"""
    out = []
    with open(patch) as fh:
        for line in fh:
            if line.startswith("# allow-new:"):
                out = [x.strip() for x in line.split(":", 1)[1].split(",") if x.strip()]
            if not line.startswith("#"):
                break
    return out


def collect(props):
    items = []
    for d in sorted(glob.glob(os.path.join(V, "selftest", "C*"))):
        prop = os.path.basename(d)
        if props and prop not in props:
            continue
        for p in sorted(glob.glob(os.path.join(d, "*.patch"))):
            bn = os.path.basename(p)
            kind = "keep" if bn.startswith("keep") else ("repair" if bn.startswith("repair") else "break")
            items.append((prop, kind, p, expectations(p)))
    if not props or "keep-agents" in props:
        for p in sorted(glob.glob(os.path.join(V, "selftest", "keep-agents", "*.diff"))):
            items.append(("ALL", "keep", p, []))
    for d in sorted(glob.glob(os.path.join(V, "seeded", "*"))):
        meta = os.path.join(d, "meta.json")
        pf = os.path.join(d, "patch.diff")
        if not (os.path.exists(meta) and os.path.exists(pf)):
            continue
        m = json.load(open(meta))
        prop = m.get("property")
        cps = m.get("check_properties") or [prop]
        if props and not (set(cps) | {prop}) & set(props):
            continue
        # a seeded mutant may be reported by the check of a neighbouring property (recorded in meta.check_properties)
        for cp in cps:
            if not props or cp in props or prop in props:
                items.append((cp, "seeded", pf, m.get("expect_rules", [])))
    return items


def main(argv):
    out_json = None
    shard = None
    props = []
    i = 1
    while i < len(argv):
        if argv[i] == "--json":
            out_json = argv[i + 1]
            i += 2
        elif argv[i] == "--shard":      # --shard k/n : run every n-th item starting at k (parallel runs, one scratch copy each)
            shard = tuple(int(x) for x in argv[i + 1].split("/"))
            i += 2
        else:
            props.append(argv[i])
            i += 1
    items = collect(props)
    if shard:
        items = items[shard[0]::shard[1]]
    if not items:
        print("no self-test patches for", props)
        return 0
    root = tempfile.mkdtemp(prefix="raftlint-selftest-", dir="/var/tmp")
    if shard:
        os.environ["RAFTLINT_SCRATCH_TARGET"] = root      # own cargo target dir, removed with the scratch copy
    scratch = os.path.join(root, "repo")
    evdir = os.path.join(root, "ev")
    os.makedirs(evdir)
    results = []
    rc = 0
    try:
        subprocess.check_call(["rsync", "-a", "--exclude", "target", "--exclude", ".git", REPO + "/", scratch + "/"])
        base = {}
        allprops = sorted(os.path.basename(p)[:-3].upper() for p in glob.glob(os.path.join(V, "engine", "raftlint", "rules", "c[0-9][0-9].py")))
        need = set(x[0] for x in items)
        allb = run_checks(allprops if "ALL" in need else sorted(need), scratch, evdir)
        if "ALL" in need:
            allb["ALL"] = (set(("%s:%s" % (p, r), s_) for p, (fl, _f) in allb.items() for (r, s_) in fl), None)
        for prop, (b, fatal) in allb.items():
            if fatal:
                print("baseline of %s failed:\n%s" % (prop, fatal))
                return 2
            base[prop] = b
        for (prop, kind, patch, exp) in items:
            t0 = time.time()
            name = os.path.relpath(patch, V)
            ok, out = apply_patch(scratch, patch)
            if not ok:
                results.append({"patch": name, "kind": kind, "result": "PATCH-DOES-NOT-APPLY", "detail": out[-400:]})
                print("[SKIP] %s: patch does not apply" % name)
                apply_patch(scratch, patch, reverse=True)
                subprocess.check_call(["rsync", "-a", "--delete", "--exclude", "target", "--exclude", ".git", REPO + "/", scratch + "/"])
                rc = rc or 1
                continue
            if prop == "ALL":
                ar = run_checks(allprops, scratch, evdir)
                failing = set(("%s:%s" % (p, r), s_) for p, (fl, _f) in ar.items() for (r, s_) in fl)
                fatal = next((f for (_fl, f) in ar.values() if f and "does not compile" in f), None)
            else:
                failing, fatal, cout = run_check(prop, scratch, evdir)
            new = sorted(failing - base[prop])
            res = {"patch": name, "kind": kind, "expect": exp, "new_failing": [list(x) for x in new], "wall_s": round(time.time() - t0, 1)}
            if fatal and "does not compile" in fatal:
                res["result"] = "MUTANT-DOES-NOT-COMPILE"
                rc = rc or 1
            elif kind == "keep":
                allow = allowed_new(patch)
                new_eff = [x for x in new if not any(x[0] == a or x[0].startswith(a) for a in allow)]
                res["result"] = "PASS" if not new_eff and not fatal else "FALSE-ALARM"
            elif kind == "repair":
                # a repair of a listed finding: the baseline failures of the named rules disappear, nothing new fails
                gone = sorted(base[prop] - failing)
                res["resolved"] = [list(x) for x in gone]
                hit = all(any(r == e or r.startswith(e) for (r, _s) in gone) for e in exp) if exp else bool(gone)
                still = [x for x in failing if any(x[0] == e or x[0].startswith(e) for e in exp)] if exp else []
                res["result"] = "PASS" if hit and not new and not fatal else ("FALSE-ALARM" if new else "NOT-RESOLVED")
            else:
                if exp:
                    hit = all(any(r == e or r.startswith(e) for (r, _s) in new) for e in exp)
                else:
                    hit = bool(new)
                res["result"] = "PASS" if hit else "MISSED"
            if res["result"] not in ("PASS",):
                rc = rc or 1
                if fatal:
                    res["detail"] = fatal[-600:]
            results.append(res)
            print("[%s] %s %s expect=%s new=%s (%.0fs)" % (res["result"], kind, name, exp, ["%s@%s" % x for x in new][:4], res["wall_s"]))
            ok, out = apply_patch(scratch, patch, reverse=True)
            if not ok:
                subprocess.check_call(["rsync", "-a", "--delete", "--exclude", "target", "--exclude", ".git", REPO + "/", scratch + "/"])
    finally:
        shutil.rmtree(root, ignore_errors=True)
    if out_json:
        json.dump({"results": results}, open(out_json, "w"), indent=1)
    n_pass = len([r for r in results if r["result"] == "PASS"])
    print("self-tests: %d/%d pass" % (n_pass, len(results)))
    return rc


if __name__ == "__main__":
    sys.exit(main(sys.argv))
