#!/usr/bin/env python3
"""Generates MANIFEST.json from the table of implemented rule modules."""
import json, os, re, sys
V = os.path.dirname(os.path.dirname(os.path.abspath(__file__)))
sys.path.insert(0, os.path.join(V, "engine"))
props = [json.loads(l) for l in open(os.path.join(V, "properties.jsonl"))]
NA = {
    "C32": "bounded-time liveness under fair scheduling; depends on timer values, retry arithmetic and the environment - no static argument in reach (DESIGN section 5)",
}
checks = []
na = []
for p in props:
    pid = p["id"]
    modp = os.path.join(V, "engine", "raftlint", "rules", pid.lower() + ".py")
    if pid in NA:
        na.append({"property_id": pid, "reason": NA[pid]})
        continue
    if not os.path.exists(modp):
        na.append({"property_id": pid, "reason": "static rule module not implemented yet (planned, see DESIGN section 4)"})
        continue
    src = open(modp).read()
    doc = re.search(r'^"""(.*?)"""', src, re.S).group(1).strip()
    level = re.search(r'^LEVEL\s*=\s*"(\w+)"', src, re.M)
    level = level.group(1) if level else "other"
    tech = re.search(r'^TECHNIQUE\s*=\s*"(.*)"', src, re.M)
    tech = tech.group(1) if tech else "static analysis of rustc MIR facts: dominance/guard, call-graph and value-provenance rules"
    note = re.search(r'^LEVEL_NOTE\s*=\s*"(.*)"', src, re.M)
    checks.append({
        "property_id": pid,
        "quick_cmd": "./check %s --tier quick" % pid,
        "thorough_cmd": "./check %s --tier thorough" % pid,
        "evidence_file": "/verif/evidence/%s.json" % pid,
        "replay_cmd_template": "./check %s --replay {path}" % pid,
        "engine": "raftlint",
        "level_claimed": {"category": level, "text": doc, "design_ref": "DESIGN.md section 4 / %s" % pid},
        "level_note": note.group(1) if note else "Decides the named structural clauses (necessary conditions), not the behaviour as a whole. Trusted base: rustc MIR construction on nightly, the raftlint extractor and rule engine, class-hierarchy expansion of trait calls over workspace impls, inlining bound 6 (quick) / 10 (thorough).",
        "technique": tech,
    })
m = {
    "version": 1,
    "setup_cmd": "./setup.sh",
    "hooks": {"guard": "d_engine_verif", "enable": "none needed: static analysis reads the tree as it is (no source hooks)", "baseline_off_cmd": "cd /repo && cargo nextest run --workspace --no-fail-fast --test-threads 8 --offline || cargo test --workspace --no-fail-fast --offline", "source_commits": [], "add_only": True},
    "engines": [{"name": "raftlint", "path": "/verif/engine", "serves_properties": [c["property_id"] for c in checks],
                 "kind_free_text": "rustc_private MIR fact extractor (mir_built, resolved callees) + python rule engine: dominance/guard rules on an edge-split CFG, call graph with class-hierarchy expansion, value-provenance slices, symbolic guard tables of loop-free functions"}],
    "checks": checks,
    "not_applicable": na,
    "notes": "Static analysis only: no registered check executes d-engine code. Known defects of the pinned tree are listed in /verif/known_findings.json and printed as KNOWN-FINDING lines.",
}
json.dump(m, open(os.path.join(V, "MANIFEST.json"), "w"), indent=1)
print("checks:", len(checks), "not_applicable:", len(na))
