// raftlint-extractor: a rustc_private driver that dumps type-checked MIR facts
// (mir_built level) for the d-engine workspace crates as JSON.
//
// Used as RUSTC_WORKSPACE_WRAPPER under `cargo +nightly check`.  argv[1] is the real
// rustc path (dropped).  Facts are written to $RAFTLINT_OUT/<crate>-<pid>.json in one
// write per process.  Nothing in here executes d-engine code.
#![feature(rustc_private)]
#![allow(clippy::all)]

extern crate rustc_abi;
extern crate rustc_data_structures;
extern crate rustc_driver;
extern crate rustc_hir;
extern crate rustc_interface;
extern crate rustc_middle;
extern crate rustc_session;
extern crate rustc_span;

use std::fmt::Write as _;
use std::sync::Mutex;
use std::sync::OnceLock;

use rustc_data_structures::steal::Steal;
use rustc_hir::def::DefKind;
use rustc_hir::def_id::{DefId, LocalDefId};
use rustc_middle::mir::{self, *};
use rustc_middle::ty::print::{with_crate_prefix, with_no_trimmed_paths, with_no_visible_paths};
use rustc_middle::ty::{self, Ty, TyCtxt, TypeVisitableExt};
use rustc_middle::ty::print::PrintTraitRefExt;
use rustc_middle::util::Providers;
use rustc_session::Session;
use rustc_span::Span;

type MirBuilt = for<'tcx> fn(TyCtxt<'tcx>, LocalDefId) -> &'tcx Steal<Body<'tcx>>;
static ORIG: OnceLock<MirBuilt> = OnceLock::new();
static BODIES: Mutex<Vec<String>> = Mutex::new(Vec::new());
static CRATE: OnceLock<String> = OnceLock::new();

// ---------------------------------------------------------------- json helpers
fn js(s: &str) -> String {
    let mut o = String::with_capacity(s.len() + 2);
    o.push('"');
    for c in s.chars() {
        match c {
            '"' => o.push_str("\\\""),
            '\\' => o.push_str("\\\\"),
            '\n' => o.push_str("\\n"),
            '\r' => o.push_str("\\r"),
            '\t' => o.push_str("\\t"),
            c if (c as u32) < 0x20 => {
                let _ = write!(o, "\\u{:04x}", c as u32);
            }
            c => o.push(c),
        }
    }
    o.push('"');
    o
}

fn fix_crate(s: String) -> String {
    // `with_crate_prefix!` prints local paths as `crate::…`; make them `<name>::…`.
    let name = CRATE.get().map(|s| s.as_str()).unwrap_or("crate");
    let b = s.as_bytes();
    let mut out = String::with_capacity(s.len() + 16);
    let mut i = 0;
    while i < b.len() {
        if b[i..].starts_with(b"crate::")
            && (i == 0 || !(b[i - 1].is_ascii_alphanumeric() || b[i - 1] == b'_'))
        {
            out.push_str(name);
            out.push_str("::");
            i += 7;
        } else {
            // push one utf-8 char
            let ch = s[i..].chars().next().unwrap();
            out.push(ch);
            i += ch.len_utf8();
        }
    }
    out
}

fn path(tcx: TyCtxt<'_>, d: DefId) -> String {
    fix_crate(with_no_visible_paths!(with_no_trimmed_paths!(with_crate_prefix!(
        tcx.def_path_str(d)
    ))))
}
fn path_args<'tcx>(tcx: TyCtxt<'tcx>, d: DefId, a: ty::GenericArgsRef<'tcx>) -> String {
    fix_crate(with_no_visible_paths!(with_no_trimmed_paths!(with_crate_prefix!(
        tcx.def_path_str_with_args(d, a)
    ))))
}
fn tystr<'tcx>(t: Ty<'tcx>) -> String {
    fix_crate(with_no_visible_paths!(with_no_trimmed_paths!(with_crate_prefix!(t.to_string()))))
}

fn span_info(tcx: TyCtxt<'_>, sp: Span) -> (String, u32, Vec<String>) {
    // (file, line of the outermost call site, macro backtrace innermost→outermost)
    let mut macros = Vec::new();
    if sp.from_expansion() {
        for ed in sp.macro_backtrace() {
            let n = match ed.macro_def_id {
                Some(d) => path(tcx, d),
                None => format!("{:?}", ed.kind),
            };
            macros.push(n);
        }
    }
    let root = sp.source_callsite();
    let sm = tcx.sess.source_map();
    let loc = sm.lookup_char_pos(root.lo());
    let file = match &loc.file.name {
        rustc_span::FileName::Real(r) => match r.local_path() {
            Some(p) => p.to_string_lossy().to_string(),
            None => format!("{:?}", loc.file.name),
        },
        o => format!("{:?}", o),
    };
    (file, loc.line as u32, macros)
}

fn sp_json(tcx: TyCtxt<'_>, sp: Span) -> String {
    let (_f, line, macros) = span_info(tcx, sp);
    if macros.is_empty() {
        format!("\"ln\":{}", line)
    } else {
        let m: Vec<String> = macros.iter().map(|s| js(s)).collect();
        format!("\"ln\":{},\"exp\":[{}]", line, m.join(","))
    }
}

// ---------------------------------------------------------------- places / operands
fn upvar_names(tcx: TyCtxt<'_>, d: DefId) -> Vec<String> {
    if let Some(l) = d.as_local() {
        tcx.closure_captures(l).iter().map(|c| c.to_string(tcx)).collect()
    } else {
        Vec::new()
    }
}

fn place_json<'tcx>(tcx: TyCtxt<'tcx>, body: &Body<'tcx>, p: &Place<'tcx>) -> String {
    let mut out = format!("{{\"l\":{}", p.local.as_u32());
    if !p.projection.is_empty() {
        out.push_str(",\"pj\":[");
        let mut pty = PlaceTy::from_ty(body.local_decls[p.local].ty);
        let mut first = true;
        for elem in p.projection.iter() {
            if !first {
                out.push(',');
            }
            first = false;
            match elem {
                ProjectionElem::Deref => out.push_str("\"*\""),
                ProjectionElem::Field(f, _fty) => {
                    let mut done = false;
                    match pty.ty.kind() {
                        ty::Adt(adt, _) => {
                            let v = match pty.variant_index {
                                Some(v) => v,
                                None => rustc_abi::FIRST_VARIANT,
                            };
                            if adt.is_enum() || adt.is_struct() || adt.is_union() {
                                let vd = adt.variant(v);
                                if f.as_usize() < vd.fields.len() {
                                    let fname = vd.fields[f].name.to_string();
                                    let _ = write!(
                                        out,
                                        "{{\"f\":{},\"adt\":{}{}}}",
                                        js(&fname),
                                        js(&path(tcx, adt.did())),
                                        if adt.is_enum() {
                                            format!(",\"v\":{}", js(&vd.name.to_string()))
                                        } else {
                                            String::new()
                                        }
                                    );
                                    done = true;
                                }
                            }
                        }
                        ty::Closure(d, _) | ty::Coroutine(d, _) | ty::CoroutineClosure(d, _) => {
                            let names = upvar_names(tcx, *d);
                            let n = names
                                .get(f.as_usize())
                                .cloned()
                                .unwrap_or_else(|| format!("{}", f.as_usize()));
                            let _ = write!(out, "{{\"up\":{}}}", js(&n));
                            done = true;
                        }
                        _ => {}
                    }
                    if !done {
                        let _ = write!(out, "{{\"i\":{}}}", f.as_usize());
                    }
                }
                ProjectionElem::Index(l) => {
                    let _ = write!(out, "{{\"ix\":{}}}", l.as_u32());
                }
                ProjectionElem::ConstantIndex { offset, from_end, .. } => {
                    let _ = write!(out, "{{\"cix\":{},\"end\":{}}}", offset, from_end);
                }
                ProjectionElem::Subslice { .. } => out.push_str("\"sub\""),
                ProjectionElem::Downcast(name, _v) => {
                    let n = name.map(|s| s.to_string()).unwrap_or_default();
                    let _ = write!(out, "{{\"dc\":{}}}", js(&n));
                }
                ProjectionElem::OpaqueCast(_) => out.push_str("\"opq\""),
                ProjectionElem::UnwrapUnsafeBinder(_) => out.push_str("\"unb\""),
                #[allow(unreachable_patterns)]
                _ => out.push_str("\"?\""),
            }
            pty = pty.projection_ty(tcx, elem);
        }
        out.push(']');
    }
    out.push('}');
    out
}

fn const_json<'tcx>(tcx: TyCtxt<'tcx>, body: &Body<'tcx>, c: &ConstOperand<'tcx>) -> String {
    let ty = c.const_.ty();
    match ty.kind() {
        ty::FnDef(d, args) => {
            return fndef_json(tcx, body, *d, args);
        }
        _ => {}
    }
    let mut val: Option<String> = None;
    if ty.is_integral() || ty.is_bool() || ty.is_char() {
        let te = body.typing_env(tcx);
        if let Some(si) = c.const_.try_eval_scalar_int(tcx, te) {
            if ty.is_bool() {
                val = Some(if si.to_bits_unchecked() != 0 { "true".into() } else { "false".into() });
            } else if ty.is_signed() {
                let size = si.size();
                val = Some(format!("{}", si.to_int(size)));
            } else {
                val = Some(format!("{}", si.to_bits_unchecked()));
            }
        }
    }
    let txt = fix_crate(with_no_visible_paths!(with_no_trimmed_paths!(with_crate_prefix!(format!(
        "{}",
        c.const_
    )))));
    let mut txt = txt;
    if txt.len() > 200 {
        txt.truncate(200);
    }
    match val {
        Some(v) => format!("{{\"c\":{},\"v\":{},\"ty\":{}}}", js(&txt), js(&v), js(&tystr(ty))),
        None => format!("{{\"c\":{},\"ty\":{}}}", js(&txt), js(&tystr(ty))),
    }
}

fn fndef_json<'tcx>(
    tcx: TyCtxt<'tcx>,
    body: &Body<'tcx>,
    d: DefId,
    args: ty::GenericArgsRef<'tcx>,
) -> String {
    let p = path(tcx, d);
    let pa = path_args(tcx, d, args);
    let mut out = format!("{{\"fn\":{},\"fa\":{}", js(&p), js(&pa));
    // trait method?  record the trait, method name and Self type
    if let Some(ai) = tcx.opt_associated_item(d) {
        if let Some(tr) = ai.trait_container(tcx) {
            let _ = write!(out, ",\"tr\":{}", js(&path(tcx, tr)));
            if let Some(self_ty) = args.types().next() {
                let _ = write!(out, ",\"self\":{}", js(&tystr(self_ty)));
                let mut st = self_ty;
                while let ty::Ref(_, inner, _) = st.kind() {
                    st = *inner;
                }
                match st.kind() {
                    ty::Closure(cd, _) | ty::Coroutine(cd, _) | ty::CoroutineClosure(cd, _) => {
                        let _ = write!(out, ",\"self_closure\":{}", js(&path(tcx, *cd)));
                    }
                    ty::Adt(adt, _) => {
                        let _ = write!(out, ",\"self_adt\":{}", js(&path(tcx, adt.did())));
                    }
                    ty::Dynamic(..) => {
                        let _ = write!(out, ",\"self_dyn\":true");
                    }
                    _ => {}
                }
            }
        } else if let Some(imp) = ai.impl_container(tcx) {
            let _ = imp;
        }
    }
    // try to resolve to a concrete instance
    let te = body.typing_env(tcx);
    if !args.has_escaping_bound_vars() {
        if let Ok(Some(inst)) = ty::Instance::try_resolve(tcx, te, d, args) {
            let rd = inst.def_id();
            let _ = write!(out, ",\"res\":{}", js(&path(tcx, rd)));
            if let ty::InstanceKind::Item(_) = inst.def {
            } else {
                let _ = write!(out, ",\"ik\":{}", js(&format!("{:?}", inst.def).chars().take(40).collect::<String>()));
            }
        }
    }
    out.push('}');
    out
}

fn op_json<'tcx>(tcx: TyCtxt<'tcx>, body: &Body<'tcx>, o: &Operand<'tcx>) -> String {
    match o {
        Operand::Copy(p) => format!("{{\"p\":{}}}", place_json(tcx, body, p)),
        Operand::Move(p) => format!("{{\"p\":{},\"mv\":1}}", place_json(tcx, body, p)),
        Operand::Constant(c) => const_json(tcx, body, c),
        #[allow(unreachable_patterns)]
        _ => "{\"c\":\"?rt\"}".to_string(),
    }
}

fn adt_variants_json<'tcx>(tcx: TyCtxt<'tcx>, t: Ty<'tcx>) -> String {
    // for Discriminant(place): map discr value -> variant name
    let mut t = t;
    while let ty::Ref(_, inner, _) = t.kind() {
        t = *inner;
    }
    match t.kind() {
        ty::Adt(adt, _) if adt.is_enum() => {
            let mut v = Vec::new();
            for (idx, d) in adt.discriminants(tcx) {
                v.push(format!("[{},{}]", js(&d.val.to_string()), js(&adt.variant(idx).name.to_string())));
            }
            format!(",\"adt\":{},\"vs\":[{}]", js(&path(tcx, adt.did())), v.join(","))
        }
        _ => String::new(),
    }
}

fn rvalue_json<'tcx>(tcx: TyCtxt<'tcx>, body: &Body<'tcx>, rv: &Rvalue<'tcx>) -> String {
    match rv {
        Rvalue::Use(o, ..) => format!("{{\"k\":\"use\",\"a\":{}}}", op_json(tcx, body, o)),
        Rvalue::Repeat(o, _) => format!("{{\"k\":\"repeat\",\"a\":{}}}", op_json(tcx, body, o)),
        Rvalue::Ref(_, bk, p) => format!(
            "{{\"k\":\"ref\",\"mut\":{},\"pl\":{}}}",
            matches!(bk, BorrowKind::Mut { .. }),
            place_json(tcx, body, p)
        ),
        Rvalue::RawPtr(_, p) => format!("{{\"k\":\"rawptr\",\"pl\":{}}}", place_json(tcx, body, p)),
        Rvalue::Cast(ck, o, t) => format!(
            "{{\"k\":\"cast\",\"ck\":{},\"a\":{},\"ty\":{}}}",
            js(&format!("{:?}", ck).chars().take(60).collect::<String>()),
            op_json(tcx, body, o),
            js(&tystr(*t))
        ),
        Rvalue::BinaryOp(op, ab) => format!(
            "{{\"k\":\"bin\",\"op\":{},\"a\":{},\"b\":{}}}",
            js(&format!("{:?}", op)),
            op_json(tcx, body, &ab.0),
            op_json(tcx, body, &ab.1)
        ),
        Rvalue::UnaryOp(op, o) => format!(
            "{{\"k\":\"un\",\"op\":{},\"a\":{}}}",
            js(&format!("{:?}", op)),
            op_json(tcx, body, o)
        ),
        Rvalue::Discriminant(p) => {
            let t = p.ty(body, tcx).ty;
            format!(
                "{{\"k\":\"discr\",\"pl\":{}{}}}",
                place_json(tcx, body, p),
                adt_variants_json(tcx, t)
            )
        }
        Rvalue::Aggregate(kind, ops) => {
            let opsj: Vec<String> = ops.iter().map(|o| op_json(tcx, body, o)).collect();
            match &**kind {
                AggregateKind::Adt(d, vi, _args, _, active) => {
                    let adt = tcx.adt_def(*d);
                    let vd = adt.variant(*vi);
                    let mut names: Vec<String> =
                        vd.fields.iter().map(|f| js(&f.name.to_string())).collect();
                    if let Some(a) = active {
                        names = vec![js(&vd.fields[*a].name.to_string())];
                    }
                    format!(
                        "{{\"k\":\"agg\",\"adt\":{},\"v\":{},\"fs\":[{}],\"ops\":[{}]}}",
                        js(&path(tcx, *d)),
                        js(&vd.name.to_string()),
                        names.join(","),
                        opsj.join(",")
                    )
                }
                AggregateKind::Closure(d, _)
                | AggregateKind::Coroutine(d, _)
                | AggregateKind::CoroutineClosure(d, _) => {
                    let names: Vec<String> = upvar_names(tcx, *d).iter().map(|s| js(s)).collect();
                    format!(
                        "{{\"k\":\"agg\",\"closure\":{},\"fs\":[{}],\"ops\":[{}]}}",
                        js(&path(tcx, *d)),
                        names.join(","),
                        opsj.join(",")
                    )
                }
                AggregateKind::Tuple => format!("{{\"k\":\"agg\",\"tuple\":1,\"ops\":[{}]}}", opsj.join(",")),
                AggregateKind::Array(_) => format!("{{\"k\":\"agg\",\"array\":1,\"ops\":[{}]}}", opsj.join(",")),
                AggregateKind::RawPtr(..) => format!("{{\"k\":\"agg\",\"rawptr\":1,\"ops\":[{}]}}", opsj.join(",")),
            }
        }
        Rvalue::CopyForDeref(p) => format!("{{\"k\":\"use\",\"a\":{{\"p\":{}}}}}", place_json(tcx, body, p)),
        Rvalue::ThreadLocalRef(d) => format!("{{\"k\":\"tls\",\"d\":{}}}", js(&path(tcx, *d))),
        Rvalue::WrapUnsafeBinder(o, _) => format!("{{\"k\":\"use\",\"a\":{}}}", op_json(tcx, body, o)),
        #[allow(unreachable_patterns)]
        _ => "{\"k\":\"other\"}".to_string(),
    }
}

fn unwind_bb(u: &UnwindAction) -> String {
    match u {
        UnwindAction::Cleanup(bb) => format!("{}", bb.as_u32()),
        _ => "null".into(),
    }
}

fn body_json<'tcx>(tcx: TyCtxt<'tcx>, def: LocalDefId, body: &Body<'tcx>) -> String {
    let did = def.to_def_id();
    let kind = tcx.def_kind(did);
    let mut out = String::with_capacity(16 * 1024);
    let (file, line, _) = span_info(tcx, body.span);
    let _ = write!(
        out,
        "{{\"id\":{},\"kind\":{},\"file\":{},\"line\":{},\"argc\":{}",
        js(&path(tcx, did)),
        js(&format!("{:?}", kind)),
        js(&file),
        line,
        body.arg_count
    );
    if matches!(kind, DefKind::Closure | DefKind::InlineConst | DefKind::AnonConst | DefKind::SyntheticCoroutineBody) {
        let parent = tcx.local_parent(def);
        let _ = write!(out, ",\"parent\":{}", js(&path(tcx, parent.to_def_id())));
    }
    if body.coroutine.is_some() {
        out.push_str(",\"coroutine\":true");
    }
    if matches!(kind, DefKind::Fn | DefKind::AssocFn) {
        let vis = tcx.visibility(did);
        let v = match vis {
            ty::Visibility::Public => "pub".to_string(),
            ty::Visibility::Restricted(m) => format!("in:{}", path(tcx, m)),
        };
        let _ = write!(out, ",\"vis\":{}", js(&v));
        if let Some(ai) = tcx.opt_associated_item(did) {
            if let Some(ti) = ai.trait_item_def_id() {
                if ti != did {
                    let _ = write!(out, ",\"impl_of\":{}", js(&path(tcx, ti)));
                }
            }
            if let Some(imp) = ai.impl_container(tcx) {
                let st = tcx.type_of(imp).instantiate_identity().skip_norm_wip();
                let _ = write!(out, ",\"self_ty\":{}", js(&tystr(st)));
            }
        }
    }
    if matches!(kind, DefKind::Closure) {
        let names: Vec<String> = upvar_names(tcx, did).iter().map(|s| js(s)).collect();
        let _ = write!(out, ",\"upvars\":[{}]", names.join(","));
    }
    // locals
    out.push_str(",\"locals\":[");
    let mut names: Vec<Option<String>> = vec![None; body.local_decls.len()];
    for vdi in &body.var_debug_info {
        if let VarDebugInfoContents::Place(p) = &vdi.value {
            if p.projection.is_empty() && names[p.local.as_usize()].is_none() {
                names[p.local.as_usize()] = Some(vdi.name.to_string());
            }
        }
    }
    for (i, ld) in body.local_decls.iter().enumerate() {
        if i > 0 {
            out.push(',');
        }
        let mut t = tystr(ld.ty);
        if t.len() > 300 {
            t.truncate(300);
        }
        match &names[i] {
            Some(n) => {
                let _ = write!(out, "{{\"ty\":{},\"n\":{}}}", js(&t), js(n));
            }
            None => {
                let _ = write!(out, "{{\"ty\":{}}}", js(&t));
            }
        }
    }
    out.push_str("],\"blocks\":[");
    for (bi, bb) in body.basic_blocks.iter().enumerate() {
        if bi > 0 {
            out.push(',');
        }
        out.push_str("{");
        if bb.is_cleanup {
            out.push_str("\"cleanup\":true,");
        }
        out.push_str("\"st\":[");
        let mut first = true;
        for st in &bb.statements {
            let s = match &st.kind {
                StatementKind::Assign(b) => {
                    let (p, rv) = &**b;
                    Some(format!(
                        "{{\"lhs\":{},\"rv\":{},{}}}",
                        place_json(tcx, body, p),
                        rvalue_json(tcx, body, rv),
                        sp_json(tcx, st.source_info.span)
                    ))
                }
                StatementKind::SetDiscriminant { place, variant_index } => Some(format!(
                    "{{\"setdiscr\":{},\"vi\":{},{}}}",
                    place_json(tcx, body, place),
                    variant_index.as_u32(),
                    sp_json(tcx, st.source_info.span)
                )),
                _ => None,
            };
            if let Some(s) = s {
                if !first {
                    out.push(',');
                }
                first = false;
                out.push_str(&s);
            }
        }
        out.push_str("],\"t\":");
        let term = bb.terminator();
        let spj = sp_json(tcx, term.source_info.span);
        let t = match &term.kind {
            TerminatorKind::Goto { target } => format!("{{\"k\":\"goto\",\"t\":{}}}", target.as_u32()),
            TerminatorKind::SwitchInt { discr, targets } => {
                let mut tv = Vec::new();
                for (v, t) in targets.iter() {
                    tv.push(format!("[{},{}]", js(&v.to_string()), t.as_u32()));
                }
                let dty = discr.ty(body, tcx);
                format!(
                    "{{\"k\":\"switch\",\"d\":{},\"dty\":{},\"ts\":[{}],\"else\":{},{}}}",
                    op_json(tcx, body, discr),
                    js(&tystr(dty)),
                    tv.join(","),
                    targets.otherwise().as_u32(),
                    spj
                )
            }
            TerminatorKind::UnwindResume => "{\"k\":\"resume\"}".into(),
            TerminatorKind::UnwindTerminate(_) => "{\"k\":\"abort\"}".into(),
            TerminatorKind::Return => "{\"k\":\"return\"}".into(),
            TerminatorKind::Unreachable => "{\"k\":\"unreachable\"}".into(),
            TerminatorKind::Drop { place, target, unwind, .. } => format!(
                "{{\"k\":\"drop\",\"pl\":{},\"t\":{},\"uw\":{}}}",
                place_json(tcx, body, place),
                target.as_u32(),
                unwind_bb(unwind)
            ),
            TerminatorKind::Call { func, args, destination, target, unwind, fn_span, .. } => {
                let a: Vec<String> = args.iter().map(|o| op_json(tcx, body, &o.node)).collect();
                let f = match func {
                    Operand::Constant(c) => const_json(tcx, body, c),
                    o => op_json(tcx, body, o),
                };
                let (_ff, fl, _m) = span_info(tcx, *fn_span);
                format!(
                    "{{\"k\":\"call\",\"f\":{},\"args\":[{}],\"dest\":{},\"t\":{},\"uw\":{},\"fl\":{},{}}}",
                    f,
                    a.join(","),
                    place_json(tcx, body, destination),
                    match target {
                        Some(t) => format!("{}", t.as_u32()),
                        None => "null".into(),
                    },
                    unwind_bb(unwind),
                    fl,
                    spj
                )
            }
            TerminatorKind::TailCall { func, args, .. } => {
                let a: Vec<String> = args.iter().map(|o| op_json(tcx, body, &o.node)).collect();
                format!(
                    "{{\"k\":\"tailcall\",\"f\":{},\"args\":[{}],{}}}",
                    op_json(tcx, body, func),
                    a.join(","),
                    spj
                )
            }
            TerminatorKind::Assert { cond, expected, target, unwind, .. } => format!(
                "{{\"k\":\"assert\",\"c\":{},\"exp_val\":{},\"t\":{},\"uw\":{}}}",
                op_json(tcx, body, cond),
                expected,
                target.as_u32(),
                unwind_bb(unwind)
            ),
            TerminatorKind::Yield { value, resume, resume_arg, drop } => format!(
                "{{\"k\":\"yield\",\"v\":{},\"t\":{},\"ra\":{},\"drop\":{},{}}}",
                op_json(tcx, body, value),
                resume.as_u32(),
                place_json(tcx, body, resume_arg),
                match drop {
                    Some(d) => format!("{}", d.as_u32()),
                    None => "null".into(),
                },
                spj
            ),
            TerminatorKind::CoroutineDrop => "{\"k\":\"codrop\"}".into(),
            TerminatorKind::FalseEdge { real_target, imaginary_target } => format!(
                "{{\"k\":\"falseedge\",\"t\":{},\"imag\":{}}}",
                real_target.as_u32(),
                imaginary_target.as_u32()
            ),
            TerminatorKind::FalseUnwind { real_target, unwind } => format!(
                "{{\"k\":\"falseunwind\",\"t\":{},\"uw\":{}}}",
                real_target.as_u32(),
                unwind_bb(unwind)
            ),
            TerminatorKind::InlineAsm { .. } => "{\"k\":\"asm\"}".into(),
        };
        out.push_str(&t);
        out.push('}');
    }
    out.push_str("]}");
    out
}

// ---------------------------------------------------------------- query override
fn my_mir_built<'tcx>(tcx: TyCtxt<'tcx>, def: LocalDefId) -> &'tcx Steal<Body<'tcx>> {
    let orig = ORIG.get().expect("orig provider");
    let res = orig(tcx, def);
    {
        let body = res.borrow();
        let s = body_json(tcx, def, &body);
        BODIES.lock().unwrap().push(s);
    }
    res
}

fn override_queries(_sess: &Session, providers: &mut Providers) {
    let _ = ORIG.set(providers.queries.mir_built);
    providers.queries.mir_built = my_mir_built;
}

// ---------------------------------------------------------------- crate tables
fn crate_tables(tcx: TyCtxt<'_>) -> String {
    let mut impls = Vec::new();
    let mut adts = Vec::new();
    let mut traits = Vec::new();
    let mut fns = Vec::new();
    for id in tcx.hir_free_items() {
        let did = id.owner_id.to_def_id();
        match tcx.def_kind(did) {
            DefKind::Impl { of_trait } => {
                let st = tystr(tcx.type_of(did).instantiate_identity().skip_norm_wip());
                let tr = if of_trait {
                    let tref = tcx.impl_trait_ref(did).instantiate_identity().skip_norm_wip();
                    Some((path(tcx, tref.def_id), fix_crate(with_no_visible_paths!(with_no_trimmed_paths!(with_crate_prefix!(format!("{}", tref.print_only_trait_path())))))))
                } else {
                    None
                };
                let mut items = Vec::new();
                for ai in tcx.associated_items(did).in_definition_order() {
                    if matches!(ai.kind, ty::AssocKind::Fn { .. }) {
                        let of = ai.trait_item_def_id().map(|t| path(tcx, t));
                        items.push(format!(
                            "{{\"name\":{},\"def\":{}{}}}",
                            js(&ai.name().to_string()),
                            js(&path(tcx, ai.def_id)),
                            match of {
                                Some(o) => format!(",\"of\":{}", js(&o)),
                                None => String::new(),
                            }
                        ));
                    }
                }
                impls.push(format!(
                    "{{\"self\":{}{},\"items\":[{}]}}",
                    js(&st),
                    match tr {
                        Some((t, full)) => format!(",\"trait\":{},\"trait_full\":{}", js(&t), js(&full)),
                        None => String::new(),
                    },
                    items.join(",")
                ));
            }
            DefKind::Struct | DefKind::Enum | DefKind::Union => {
                let adt = tcx.adt_def(did);
                let mut vs = Vec::new();
                for v in adt.variants() {
                    let fs: Vec<String> = v
                        .fields
                        .iter()
                        .map(|f| {
                            let mut t = tystr(tcx.type_of(f.did).instantiate_identity().skip_norm_wip());
                            if t.len() > 300 {
                                t.truncate(300);
                            }
                            format!("[{},{}]", js(&f.name.to_string()), js(&t))
                        })
                        .collect();
                    vs.push(format!("{{\"name\":{},\"fields\":[{}]}}", js(&v.name.to_string()), fs.join(",")));
                }
                adts.push(format!(
                    "{{\"path\":{},\"kind\":{},\"variants\":[{}]}}",
                    js(&path(tcx, did)),
                    js(if adt.is_enum() { "enum" } else { "struct" }),
                    vs.join(",")
                ));
            }
            DefKind::Trait => {
                let mut items = Vec::new();
                for ai in tcx.associated_items(did).in_definition_order() {
                    if matches!(ai.kind, ty::AssocKind::Fn { .. }) {
                        items.push(format!(
                            "{{\"name\":{},\"def\":{},\"default\":{}}}",
                            js(&ai.name().to_string()),
                            js(&path(tcx, ai.def_id)),
                            ai.defaultness(tcx).has_value()
                        ));
                    }
                }
                traits.push(format!("{{\"path\":{},\"items\":[{}]}}", js(&path(tcx, did)), items.join(",")));
            }
            DefKind::Fn => {
                fns.push(js(&path(tcx, did)));
            }
            _ => {}
        }
    }
    format!(
        "\"impls\":[{}],\"adts\":[{}],\"traits\":[{}],\"free_fns\":[{}]",
        impls.join(","),
        adts.join(","),
        traits.join(","),
        fns.join(",")
    )
}

struct Cb {
    extract: bool,
}

impl rustc_driver::Callbacks for Cb {
    fn config(&mut self, config: &mut rustc_interface::interface::Config) {
        if self.extract {
            config.override_queries = Some(override_queries);
        }
    }
    fn after_expansion<'tcx>(
        &mut self,
        _c: &rustc_interface::interface::Compiler,
        tcx: TyCtxt<'tcx>,
    ) -> rustc_driver::Compilation {
        if self.extract {
            let name = tcx.crate_name(rustc_hir::def_id::LOCAL_CRATE).to_string();
            let _ = CRATE.set(name);
        }
        rustc_driver::Compilation::Continue
    }
    fn after_analysis<'tcx>(
        &mut self,
        _c: &rustc_interface::interface::Compiler,
        tcx: TyCtxt<'tcx>,
    ) -> rustc_driver::Compilation {
        if !self.extract {
            return rustc_driver::Compilation::Continue;
        }
        let name = tcx.crate_name(rustc_hir::def_id::LOCAL_CRATE).to_string();
        let owners = tcx.hir_body_owners().count();
        let bodies = std::mem::take(&mut *BODIES.lock().unwrap());
        let out_dir = std::env::var("RAFTLINT_OUT").expect("RAFTLINT_OUT");
        let nonce = std::env::var("RAFTLINT_NONCE").unwrap_or_default();
        let tables = crate_tables(tcx);
        let mut s = String::with_capacity(bodies.iter().map(|b| b.len() + 1).sum::<usize>() + tables.len() + 256);
        let _ = write!(
            s,
            "{{\"crate\":{},\"nonce\":{},\"body_owners\":{},\"bodies_seen\":{},{},\"bodies\":[\n",
            js(&name),
            js(&nonce),
            owners,
            bodies.len(),
            tables
        );
        for (i, b) in bodies.iter().enumerate() {
            if i > 0 {
                s.push_str(",\n");
            }
            s.push_str(b);
        }
        s.push_str("\n]}\n");
        let is_test = tcx.sess.opts.test;
        let fname = format!(
            "{}/{}{}-{}.json",
            out_dir,
            name,
            if is_test { "-test" } else { "" },
            std::process::id()
        );
        let tmp = format!("{}.tmp", fname);
        std::fs::write(&tmp, s).expect("write facts");
        std::fs::rename(&tmp, &fname).expect("rename facts");
        rustc_driver::Compilation::Continue
    }
}

fn main() {
    let mut args: Vec<String> = std::env::args().collect();
    // RUSTC_WORKSPACE_WRAPPER: argv[1] is the path of the real rustc
    if args.len() > 1 && (args[1].ends_with("rustc") || args[1].contains("/rustc")) {
        args.remove(1);
    }
    let mut crate_name = String::new();
    let mut i = 0;
    while i < args.len() {
        if args[i] == "--crate-name" && i + 1 < args.len() {
            crate_name = args[i + 1].clone();
        }
        i += 1;
    }
    let prefixes = std::env::var("RAFTLINT_CRATES").unwrap_or_else(|_| "d_engine".to_string());
    let extract = std::env::var("RAFTLINT_OUT").is_ok()
        && !crate_name.is_empty()
        && prefixes.split(',').any(|p| crate_name.starts_with(p))
        && !crate_name.starts_with("build_script");
    let mut cb = Cb { extract };
    let code = rustc_driver::catch_with_exit_code(|| {
        rustc_driver::run_compiler(&args, &mut cb);
    });
    std::process::exit(if code == std::process::ExitCode::SUCCESS { 0 } else { 1 });
}
